"""A small ELF image assembler for harness use (container only).

Property-specific *contents* (note bytes, symbol tables, DWARF sections, ...) come
from the Lean spec encoders through the driver; this module only wraps them in a
well-formed ELF container so that the real library can be driven through its
public API (`ELFFile(stream)`), which also exercises the glue code.

    img = ElfImage(cls=64, le=True, e_type=2, e_machine=62)
    i = img.add_section('.note.foo', SHT_NOTE, data=b'...', flags=2, addr=0x1000, addralign=4)
    img.add_segment(PT_NOTE, section=i)
    data = img.build()

Numbers are raw integers (use the constants below); everything is laid out in the
order: ELF header, section contents (each aligned to `addralign`), section header
string table, program headers, section headers — unless `phdr_first=True`.
"""
import struct

SHT_NULL, SHT_PROGBITS, SHT_SYMTAB, SHT_STRTAB, SHT_RELA, SHT_HASH, SHT_DYNAMIC, SHT_NOTE, SHT_NOBITS, SHT_REL = range(10)
SHT_DYNSYM = 11
SHT_SYMTAB_SHNDX = 18
SHT_RELR = 19
SHT_GNU_HASH = 0x6ffffff6
SHT_GNU_verdef, SHT_GNU_verneed, SHT_GNU_versym = 0x6ffffffd, 0x6ffffffe, 0x6fffffff
SHT_SUNW_syminfo, SHT_SUNW_LDYNSYM = 0x6ffffffc, 0x6ffffff3
SHT_ARM_EXIDX, SHT_ARM_ATTRIBUTES = 0x70000001, 0x70000003
SHT_RISCV_ATTRIBUTES = 0x70000003
PT_NULL, PT_LOAD, PT_DYNAMIC, PT_INTERP, PT_NOTE, PT_SHLIB, PT_PHDR, PT_TLS = range(8)
SHF_WRITE, SHF_ALLOC, SHF_EXECINSTR, SHF_TLS, SHF_COMPRESSED = 1, 2, 4, 0x400, 0x800
ET_REL, ET_EXEC, ET_DYN, ET_CORE = 1, 2, 3, 4
EM_386, EM_MIPS, EM_PPC64, EM_S390, EM_ARM, EM_X86_64, EM_AARCH64, EM_RISCV, EM_LOONGARCH, EM_BPF = 3, 8, 21, 22, 40, 62, 183, 243, 258, 247


class ElfImage:
    def __init__(self, cls=64, le=True, e_type=ET_EXEC, e_machine=EM_X86_64, osabi=0, abiversion=0, e_flags=0,
                 e_entry=0, phdr_first=False, shentsize_extra=0, phentsize_extra=0):
        assert cls in (32, 64)
        self.cls, self.le = cls, le
        self.e_type, self.e_machine, self.osabi, self.abiversion = e_type, e_machine, osabi, abiversion
        self.e_flags, self.e_entry = e_flags, e_entry
        self.sections = [dict(name='', type=0, flags=0, addr=0, data=b'', size=None, link=0, info=0, addralign=0, entsize=0, offset=None)]
        self.segments = []
        self.phdr_first = phdr_first
        self.shentsize_extra, self.phentsize_extra = shentsize_extra, phentsize_extra
        self.no_section_headers = False
        self.offsets = {}

    # ------------------------------------------------------------------ description
    def add_section(self, name, type, data=b'', flags=0, addr=0, link=0, info=0, addralign=1, entsize=0, size=None):
        """Returns the section index. `size` overrides len(data) (SHT_NOBITS)."""
        self.sections.append(dict(name=name, type=type, flags=flags, addr=addr, data=bytes(data), size=size, link=link,
                                  info=info, addralign=addralign, entsize=entsize, offset=None))
        return len(self.sections) - 1

    def add_segment(self, type, section=None, offset=None, vaddr=None, paddr=None, filesz=None, memsz=None, flags=4, align=1):
        """A segment covering `section` (index) unless offset/filesz are given explicitly."""
        self.segments.append(dict(type=type, section=section, offset=offset, vaddr=vaddr, paddr=paddr, filesz=filesz,
                                  memsz=memsz, flags=flags, align=align))
        return len(self.segments) - 1

    # ------------------------------------------------------------------ encoding helpers
    def _p(self, fmt, *v):
        return struct.pack(('<' if self.le else '>') + fmt, *v)

    def ehdr_size(self): return 52 if self.cls == 32 else 64
    def shdr_size(self): return 40 if self.cls == 32 else 64
    def phdr_size(self): return 32 if self.cls == 32 else 56

    def _shdr(self, s, name_off):
        size = s['size'] if s['size'] is not None else len(s['data'])
        if self.cls == 32:
            return self._p('IIIIIIIIII', name_off, s['type'], s['flags'] & 0xffffffff, s['addr'], s['offset'] or 0, size,
                           s['link'], s['info'], s['addralign'], s['entsize'])
        return self._p('IIQQQQIIQQ', name_off, s['type'], s['flags'], s['addr'], s['offset'] or 0, size, s['link'], s['info'],
                       s['addralign'], s['entsize'])

    def _phdr(self, p):
        if self.cls == 32:
            return self._p('IIIIIIII', p['type'], p['offset'], p['vaddr'], p['paddr'], p['filesz'], p['memsz'], p['flags'], p['align'])
        return self._p('IIQQQQQQ', p['type'], p['flags'], p['offset'], p['vaddr'], p['paddr'], p['filesz'], p['memsz'], p['align'])

    # ------------------------------------------------------------------ layout
    def build(self):
        secs = self.sections
        # section name string table is appended as the last section
        names = b'\0'
        name_off = {}
        for s in secs[1:]:
            if s['name'] not in name_off:
                name_off[s['name']] = len(names)
                names += s['name'].encode('utf-8') + b'\0'
        shstr = dict(name='.shstrtab', type=SHT_STRTAB, flags=0, addr=0, data=b'', size=None, link=0, info=0, addralign=1, entsize=0, offset=None)
        name_off['.shstrtab'] = len(names)
        names += b'.shstrtab\0'
        shstr['data'] = names
        allsecs = secs + [shstr]
        shstrndx = len(allsecs) - 1
        out = bytearray(self.ehdr_size())
        phentsize = self.phdr_size() + self.phentsize_extra
        shentsize = self.shdr_size() + self.shentsize_extra
        phoff = 0
        if self.phdr_first and self.segments:
            phoff = len(out)
            out += bytes(phentsize * len(self.segments))
        for s in allsecs[1:]:
            al = max(1, s['addralign'])
            while len(out) % al:
                out.append(0)
            s['offset'] = len(out)
            if s['type'] != SHT_NOBITS:
                out += s['data']
        if not self.phdr_first and self.segments:
            while len(out) % 8:
                out.append(0)
            phoff = len(out)
            out += bytes(phentsize * len(self.segments))
        while len(out) % 8:
            out.append(0)
        shoff = len(out)
        if self.no_section_headers:
            shoff, shnum, shstrndx_field = 0, 0, 0
        else:
            shnum, shstrndx_field = len(allsecs), shstrndx
            for s in allsecs:
                off = name_off.get(s['name'], 0) if s is not allsecs[0] else 0
                out += self._shdr(s, off) + bytes(self.shentsize_extra)
        # program headers
        for i, p in enumerate(self.segments):
            q = dict(p)
            if p['section'] is not None:
                s = allsecs[p['section']]
                size = s['size'] if s['size'] is not None else len(s['data'])
                q['offset'] = s['offset'] if p['offset'] is None else p['offset']
                q['vaddr'] = s['addr'] if p['vaddr'] is None else p['vaddr']
                q['filesz'] = (0 if s['type'] == SHT_NOBITS else size) if p['filesz'] is None else p['filesz']
                q['memsz'] = size if p['memsz'] is None else p['memsz']
            for k in ('offset', 'vaddr', 'filesz', 'memsz'):
                if q[k] is None:
                    q[k] = 0
            if q['paddr'] is None:
                q['paddr'] = q['vaddr']
            ph = self._phdr(q) + bytes(self.phentsize_extra)
            out[phoff + i * phentsize: phoff + (i + 1) * phentsize] = ph
        ident = b'\x7fELF' + bytes([1 if self.cls == 32 else 2, 1 if self.le else 2, 1, self.osabi, self.abiversion]) + bytes(7)
        if self.cls == 32:
            eh = ident + self._p('HHIIIIIHHHHHH', self.e_type, self.e_machine, 1, self.e_entry, phoff, shoff, self.e_flags,
                                 self.ehdr_size(), phentsize if self.segments else 0, len(self.segments), shentsize, shnum, shstrndx_field)
        else:
            eh = ident + self._p('HHIQQQIHHHHHH', self.e_type, self.e_machine, 1, self.e_entry, phoff, shoff, self.e_flags,
                                 self.ehdr_size(), phentsize if self.segments else 0, len(self.segments), shentsize, shnum, shstrndx_field)
        out[:len(eh)] = eh
        self.offsets = {i: s['offset'] for i, s in enumerate(allsecs)}
        self.phoff, self.shoff = phoff, shoff
        return bytes(out)


def strtab(names):
    """(table bytes, {name: offset}) for a list of byte/str names."""
    tab = b'\0'
    off = {}
    for n in names:
        b = n if isinstance(n, bytes) else n.encode('utf-8')
        if b not in off:
            off[b] = len(tab) if b else 0
            if b:
                tab += b + b'\0'
    return tab, off
