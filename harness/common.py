"""Shared harness machinery: the Lean driver process, canonicalisation of Python
results, exception classification, deterministic RNG helpers, result records.

Run with /venv/bin/python; /repo is put first on sys.path by `check`.
"""
import io, json, os, subprocess, sys, random, struct, hashlib, time

VERIF = os.path.dirname(os.path.dirname(os.path.abspath(__file__)))
REPO = os.environ.get('VERIF_REPO', '/repo')
DRIVER = os.path.join(VERIF, 'lean', '.lake', 'build', 'bin', 'driver')


# --------------------------------------------------------------------------- errors
def classify_exception(e):
    """Map a Python exception to the constructor name of the Lean `Err` type."""
    from elftools.common.exceptions import ELFError, ELFParseError, ELFRelocationError, \
        ELFCompressionError, DWARFError
    from elftools.construct import ConstructError
    if isinstance(e, ELFParseError): return 'elfParseError'
    if isinstance(e, ELFRelocationError): return 'elfRelocError'
    if isinstance(e, ELFCompressionError): return 'elfCompressionError'
    if isinstance(e, DWARFError): return 'dwarfError'
    if isinstance(e, ELFError): return 'elfError'
    if isinstance(e, ConstructError): return 'structError'
    if isinstance(e, AssertionError): return 'assertion'
    if isinstance(e, KeyError): return 'keyError'
    if isinstance(e, IndexError): return 'indexError'
    if isinstance(e, UnboundLocalError): return 'unboundLocal'
    if isinstance(e, UnicodeError): return 'unicodeError'
    if isinstance(e, TypeError): return 'typeError'
    if isinstance(e, ZeroDivisionError): return 'zeroDivision'
    if isinstance(e, OverflowError): return 'overflowError'
    if isinstance(e, struct.error): return 'structError'
    if isinstance(e, ValueError): return 'valueError'
    if isinstance(e, NotImplementedError): return 'notImplemented'
    if isinstance(e, StopIteration): return 'stopIteration'
    if isinstance(e, AttributeError): return 'attributeError'
    return 'other:' + type(e).__name__


def run_impl(fn):
    """{'ok': canonical value} or {'err': class}"""
    try:
        return {'ok': fn()}
    except Exception as e:      # noqa: BLE001 — classification is the point
        return {'err': classify_exception(e)}


# --------------------------------------------------------------------------- canonical values
def canon(v):
    """Python value → the JSON form of the Lean `Val` (see PyElf/Driver/Json.lean)."""
    from elftools.construct.lib.container import Container, ListContainer
    if v is None or isinstance(v, bool):
        return v
    if isinstance(v, int):
        return v
    if isinstance(v, str):
        return v
    if isinstance(v, (bytes, bytearray)):
        return {'b': bytes(v).hex()}
    if isinstance(v, Container) or isinstance(v, dict):
        return {'r': [[k, canon(x)] for k, x in v.items()]}
    if isinstance(v, (list, tuple, ListContainer)):
        return [canon(x) for x in v]
    raise TypeError('cannot canonicalise %r' % type(v))


def hx(b):
    return bytes(b).hex()


# --------------------------------------------------------------------------- driver
class Driver:
    """The compiled Lean model behind a pipe.  A reader thread drains replies so that large
    batches cannot dead-lock on full pipe buffers."""

    def __init__(self, path=None):
        import threading, queue
        path = path or os.environ.get('VERIF_DRIVER') or DRIVER
        if not os.path.exists(path):
            raise RuntimeError('driver not built: %s' % path)
        self.p = subprocess.Popen([path], stdin=subprocess.PIPE, stdout=subprocess.PIPE, bufsize=1 << 20)
        self.n = 0
        self.q = queue.Queue()

        def reader():
            for line in self.p.stdout:
                self.q.put(line)
            self.q.put(None)
        self.t = threading.Thread(target=reader, daemon=True)
        self.t.start()

    def ask_many(self, reqs, timeout=600):
        """Send a list of request dicts; return the list of replies (same order)."""
        out = []
        B = 512
        for i in range(0, len(reqs), B):
            chunk = reqs[i:i + B]
            lines = []
            for r in chunk:
                self.n += 1
                r = dict(r)
                r['id'] = self.n
                lines.append(json.dumps(r, separators=(',', ':')))
            try:
                self.p.stdin.write(('\n'.join(lines) + '\n').encode())
                self.p.stdin.flush()
            except BrokenPipeError:
                raise RuntimeError('driver died (stack overflow or crash) while receiving a batch starting at %r' % (str(chunk[0])[:300],))
            for r in chunk:
                line = self.q.get(timeout=timeout)
                if line is None:
                    raise RuntimeError('driver died (stack overflow or crash) on request %r' % (str(r)[:500],))
                out.append(json.loads(line))
        return out

    def ask(self, req):
        return self.ask_many([req])[0]

    def close(self):
        try:
            self.p.stdin.close()
            self.p.wait(timeout=10)
        except Exception:
            self.p.kill()


# --------------------------------------------------------------------------- rng helpers
BOUNDARY = [0, 1, 2, 3, 4, 7, 8, 15, 16, 63, 64, 65, 127, 128, 129, 255, 256, 0x7fff, 0x8000, 0xff00, 0xfffe,
            0xffff, 0x10000, 0xffffff, 0x1000000, 0x7fffffff, 0x80000000, 0xffffff00, 0xfffffffe, 0xffffffff,
            0x100000000, 0x7fffffffffffffff, 0x8000000000000000, 0xffffffffffffffff]


def rnd_uint(rng, bits):
    """Unsigned integer below 2**bits: boundary values mixed with uniform and small ones."""
    m = 1 << bits
    r = rng.random()
    if r < 0.3:
        return rng.choice(BOUNDARY) % m
    if r < 0.6:
        return rng.randrange(0, min(m, 300))
    if r < 0.8:
        k = rng.randrange(0, bits + 1)
        return max(0, min(m - 1, (1 << k) + rng.choice([-1, 0, 1])))
    return rng.randrange(0, m)


def rnd_bytes(rng, n):
    return bytes(rng.randrange(256) for _ in range(n))


def uleb(v):
    out = bytearray()
    while True:
        b = v & 0x7f
        v >>= 7
        if v:
            out.append(b | 0x80)
        else:
            out.append(b)
            return bytes(out)


def sleb(v):
    out = bytearray()
    while True:
        b = v & 0x7f
        v >>= 7
        done = (v == 0 and not (b & 0x40)) or (v == -1 and (b & 0x40))
        if done:
            out.append(b)
            return bytes(out)
        out.append(b | 0x80)


# --------------------------------------------------------------------------- result bookkeeping
class Outcome:
    """Collects everything a property check learns in one run."""

    def __init__(self, prop):
        self.prop = prop
        self.evaluations = 0
        self.distinct = set()          # hashes of non-trivial canonical cases
        self.samples = []
        self.violations = []           # dicts: kind ('property'|'correspondence'), stream, case, expect, got, model
        self.known_hits = {}           # finding id -> count
        self.hist = {}                 # generator distribution
        self.notes = []

    def count(self, key, n=1):
        self.hist[key] = self.hist.get(key, 0) + n

    def case(self, case, nontrivial=True):
        self.evaluations += 1
        if nontrivial:
            h = hashlib.sha1(json.dumps(case, sort_keys=True, default=str).encode()).hexdigest()[:16]
            self.distinct.add(h)
        if len(self.samples) < 3:
            self.samples.append(case)

    def violation(self, kind, stream, case, **kw):
        d = {'kind': kind, 'stream': stream, 'case': case}
        d.update(kw)
        self.violations.append(d)
