#!/venv/bin/python
"""Entry point behind ./check:   ./check Cxx [--tier quick|thorough] [--replay F] | ./check --setup

Protocol (DESIGN.md §4): regenerate Gen from /repo → lake build the property's
theorems and the driver → audit axioms → corpus + correspondence + direct
property run → verdict, evidence, replay files.

Exit 0: held on everything explored (KNOWN-FINDING lines allowed).
Exit 1: `VIOLATION property=<id> replay=<path>[ no-failing-input-found]`.
Exit 2: the check itself could not run (toolchain failure, timeout).
"""
import sys, os, json, re, time, subprocess, fcntl, importlib, traceback, hashlib, random, argparse, glob

VERIF = os.path.dirname(os.path.dirname(os.path.abspath(__file__)))
REPO = os.environ.get('VERIF_REPO', '/repo')
LEAN = os.path.join(VERIF, 'lean')
sys.path.insert(0, os.path.join(VERIF, 'harness'))
sys.path.insert(0, REPO)
os.environ.setdefault('PYELFTOOLS_VERIF', '1')

import common  # noqa: E402

ALLOWED_AXIOMS = {'propext', 'Classical.choice', 'Quot.sound'}
FORBIDDEN = re.compile(r'\bsorry\b|\badmit\b|^\s*axiom\s|native_decide|bv_decide|implemented_by|\bunsafe\s|maxHeartbeats\s+0\b')

TRUSTED_BASE = [
    'Lean 4.33 kernel (leanchecker re-check in the thorough tier)',
    'axioms allowed: propext, Classical.choice, Quot.sound; no native_decide / bv_decide / sorry / own axioms (audited every run)',
    'translators tools/gen (T1 tables, T2 construct structs, T3 pure functions): unverified, syntax-directed, refuse on unknown shapes',
    'correspondence harness (generators, canonicaliser, differ) — sampling; the only tie for hand-written control-flow models',
    'modelled not verified: CPython int/bytes/dict/list, io.BytesIO, struct, bisect, zlib, binascii.crc32, the vendored construct engine (modelled once in Con.parse)',
    'Spec side (my reading of gABI / DWARF 2-5 / LSB eh_frame / EHABI / psABIs and the vendored registries)',
]


def log(*a):
    print(*a, file=sys.stderr, flush=True)


def sh(cmd, cwd=None, timeout=None, env=None):
    t0 = time.time()
    p = subprocess.run(cmd, cwd=cwd, stdout=subprocess.PIPE, stderr=subprocess.STDOUT, timeout=timeout, env=env)
    return p.returncode, p.stdout.decode(errors='replace'), time.time() - t0


# ----------------------------------------------------------------------------- lean side
def regenerate():
    env = dict(os.environ)
    env['PYTHONPATH'] = REPO
    rc, out, dt = sh(['/venv/bin/python', os.path.join(VERIF, 'tools', 'gen', 'gen.py'), '--repo', REPO], env=env, timeout=600)
    rep = {}
    try:
        with open(os.path.join(LEAN, 'PyElf', 'Gen', 'report.json')) as f:
            rep = json.load(f)
    except Exception:
        pass
    return rc, out, rep


def props_files(prop):
    """Props/<prop>.lean plus every Props/*.lean it imports, transitively."""
    seen, todo = [], ['PyElf.Props.%s' % prop]
    while todo:
        m = todo.pop()
        path = os.path.join(LEAN, *m.split('.')) + '.lean'
        if m in seen or not os.path.exists(path):
            continue
        seen.append(m)
        for line in open(path):
            mm = re.match(r'\s*import\s+(PyElf\.Props\.\S+)', line)
            if mm:
                todo.append(mm.group(1))
    return seen


def strip_comments(lines):
    """Yield (lineno, text) with Lean block and line comments removed (crude but conservative)."""
    depth = 0
    for i, line in enumerate(lines, 1):
        out = ''
        j = 0
        while j < len(line):
            if line.startswith('/-', j):
                depth += 1
                j += 2
            elif line.startswith('-/', j) and depth > 0:
                depth -= 1
                j += 2
            elif depth == 0 and line.startswith('--', j):
                break
            else:
                if depth == 0:
                    out += line[j]
                j += 1
        yield i, out


def theorems_of(module):
    path = os.path.join(LEAN, *module.split('.')) + '.lean'
    out = []
    ns = []
    for i, line in strip_comments(open(path)):
        m = re.match(r'\s*namespace\s+(\S+)', line)
        if m:
            ns.append(m.group(1))
        m = re.match(r'\s*end\s+(\S+)', line)
        if m and ns and ns[-1] == m.group(1):
            ns.pop()
        m = re.match(r'\s*(?:@\[[^\]]*\]\s*)?(?:private\s+|protected\s+)?theorem\s+([^\s:({\[]+)', line)
        if m:
            out.append({'name': '.'.join(ns + [m.group(1)]), 'short': m.group(1), 'line': i, 'module': module})
    return out


DRIVER_ROOT = 'Driver'      # root module of the driver binary in use (all-in-one, or Drv.Cxx in fallback)


def build(prop, targets_extra=()):
    global DRIVER_ROOT
    mods = props_files(prop)
    targets = (['PyElf.Props.%s' % prop] if mods else []) + list(targets_extra)
    bindir = os.path.dirname(common.DRIVER)
    # the driver first, alone: a stale binary must never stand in for one that no longer builds
    rc_d, out_d, dt_d = sh(['lake', 'build', 'driver'], cwd=LEAN, timeout=3000)
    driver_note = None
    if rc_d != 0:
        if os.path.exists(common.DRIVER):
            os.unlink(common.DRIVER)
        # some model no longer builds.  Fall back to the driver of this property alone, so that a break
        # stays inside the import closure of the property it concerns.
        fb = 'driver_%s' % prop
        rc_f, out_f, _ = sh(['lake', 'build', fb], cwd=LEAN, timeout=3000)
        fbpath = os.path.join(bindir, fb)
        if rc_f != 0:
            if os.path.exists(fbpath):
                os.unlink(fbpath)
            out_d = out_d + out_f
            driver_note = 'neither the all-in-one driver nor %s builds' % fb
        else:
            common.DRIVER = fbpath
            os.environ['VERIF_DRIVER'] = fbpath
            DRIVER_ROOT = 'Drv.%s' % prop
            driver_note = 'all-in-one driver does not build (a module outside this property\'s closure is broken); using %s' % fb
            rc_d, out_d = 0, ''
    if targets:
        rc, out, dt = sh(['lake', 'build'] + targets, cwd=LEAN, timeout=3000)
    else:
        rc, out, dt = 0, '', 0.0
    thms = []
    for m in mods:
        thms += theorems_of(m)
    failed = set()
    broken_modules = set()
    for line in out.splitlines():
        m = re.match(r'error: (\S+?\.lean):(\d+):(\d+):', line)
        if m:
            path, ln = m.group(1), int(m.group(2))
            mod = path[:-5].replace('/', '.')
            owner = None
            for t in thms:
                if t['module'] == mod and t['line'] <= ln:
                    owner = t
            if owner is not None:
                failed.add(owner['name'])
            else:
                broken_modules.add(mod)
        m = re.match(r'- (PyElf\.\S+)', line)
        if m and rc != 0:
            mod = m.group(1)
            if not any(t['module'] == mod for t in thms):
                broken_modules.add(mod)
    driver_ok = os.path.exists(common.DRIVER) and not any(
        re.search(r'(Driver|driver)', ln) and 'error' in ln.lower() for ln in out.splitlines())
    # a failure in a non-Props dependency means no theorem of this property was checked
    dep_broken = [m for m in broken_modules if not m.startswith('PyElf.Props.')]
    if rc != 0 and (dep_broken or not failed):
        prop_mod_built = os.path.exists(os.path.join(LEAN, '.lake', 'build', 'lib', 'lean', 'PyElf', 'Props', prop + '.olean'))
        if not prop_mod_built or dep_broken:
            for t in thms:
                if t['module'] in broken_modules or dep_broken:
                    failed.add(t['name'])
    return {'rc': rc, 'log': out, 'theorems': thms, 'failed': sorted(failed), 'broken_modules': sorted(broken_modules),
            'driver_ok': driver_ok and (rc == 0 or os.path.exists(common.DRIVER)), 'wall': dt,
            'driver_note': driver_note, 'driver_log': out_d if rc_d != 0 else ''}


def import_closure(prop):
    """Lean source files (under lean/) that Props/<prop>.lean depends on, transitively (PyElf.* only)."""
    seen, todo = set(), ['PyElf.Props.%s' % prop, DRIVER_ROOT]
    files = []
    while todo:
        m = todo.pop()
        if m in seen:
            continue
        seen.add(m)
        path = os.path.join(LEAN, *m.split('.')) + '.lean'
        if not os.path.exists(path):
            continue
        files.append(path)
        for line in open(path):
            mm = re.match(r'\s*import\s+(PyElf\.\S+)', line)
            if mm:
                todo.append(mm.group(1))
    return files


def audit(prop, thms):
    """#print axioms for every property/tie theorem; forbidden-token grep over the Lean sources this
    property depends on (its import closure, plus the driver's)."""
    bad_tokens = []
    for path in import_closure(prop):
        if os.sep + 'Gen' + os.sep in path:
            continue
        for i, s in strip_comments(open(path)):
            if FORBIDDEN.search(s):
                bad_tokens.append('%s:%d: %s' % (os.path.relpath(path, LEAN), i, s.strip()))
    if not thms:
        return {'axioms': {}, 'bad_axioms': {}, 'bad_tokens': bad_tokens, 'ok': not bad_tokens}
    path = os.path.join(LEAN, 'Audit_%s.lean' % prop)
    mods = sorted({t['module'] for t in thms})
    with open(path, 'w') as f:
        for m in mods:
            f.write('import %s\n' % m)
        for t in thms:
            f.write('#print axioms %s\n' % t['name'])
    rc, out, dt = sh(['lake', 'env', 'lean', path], cwd=LEAN, timeout=1200)
    os.unlink(path)
    axioms, bad = {}, {}
    cur = None
    text = out
    for m in re.finditer(r"'([^']+)' (does not depend on any axioms|depends on axioms:\s*\[([^\]]*)\])", text, re.S):
        name = m.group(1)
        axs = [a.strip() for a in (m.group(3) or '').split(',') if a.strip()]
        axioms[name] = axs
        extra = [a for a in axs if a not in ALLOWED_AXIOMS]
        if extra:
            bad[name] = extra
    missing = [t['name'] for t in thms if t['name'] not in axioms]
    return {'axioms': axioms, 'bad_axioms': bad, 'bad_tokens': bad_tokens, 'missing': missing,
            'ok': not bad and not bad_tokens and not missing and rc == 0, 'log': out if rc != 0 else ''}


# ----------------------------------------------------------------------------- harness context
class Ctx:
    def __init__(self, prop, tier, seed, search):
        self.prop, self.tier, self.seed, self.search = prop, tier, seed, search
        self.out = common.Outcome(prop)
        self._driver = None
        self.deadline = time.time() + (75 if tier == 'quick' else 1200) * (2 if search else 1)

    @property
    def driver(self):
        if self._driver is None:
            self._driver = common.Driver()
        return self._driver

    def rng(self, stream):
        h = hashlib.sha256(('%s/%s/%d' % (self.prop, stream, self.seed)).encode()).digest()
        return random.Random(int.from_bytes(h[:8], 'big'))

    def budget(self, quick, thorough):
        n = quick if self.tier == 'quick' else thorough
        return n * 4 if self.search else n

    def time_left(self):
        return self.deadline - time.time()

    def close(self):
        if self._driver is not None:
            self._driver.close()


def classify_harness_error(e):
    """'library' when the harness stopped because of what the LIBRARY did — the exception was raised inside /repo's code in
    a call the harness does not guard (the unchanged library never raises there, or the clean run would stop too), or it
    is an attribute / type / key / index error on the harness side while handling a library object (e.g. a section
    that is no longer of the class the harness asks questions of).  Anything else (driver I/O, RuntimeError raised by the
    harness about its own tooling, OS errors, memory) is 'toolchain': exit 2."""
    tb = e.__traceback__
    frames = []
    while tb is not None:
        frames.append(tb.tb_frame.f_code.co_filename)
        tb = tb.tb_next
    repo = os.path.realpath(REPO) + os.sep
    if frames and os.path.realpath(frames[-1]).startswith(repo):
        return 'library'
    if isinstance(e, (AttributeError, TypeError, KeyError, IndexError, ValueError, AssertionError)) and not isinstance(e, RuntimeError):
        inner = os.path.realpath(frames[-1]) if frames else ''
        if inner.startswith(os.path.join(VERIF, 'harness', 'props') + os.sep) or inner.startswith(os.path.join(VERIF, 'harness', 'elfbuild')):
            return 'library'
    return 'toolchain'


def load_findings(prop):
    path = os.path.join(VERIF, 'known_findings.json')
    if not os.path.exists(path):
        return []
    with open(path) as f:
        data = json.load(f)
    return [e for e in data.get('findings', []) if e.get('property') == prop and e.get('status') == 'known']


def write_replay(prop, payload):
    d = os.path.join(VERIF, 'replays')
    os.makedirs(d, exist_ok=True)
    h = hashlib.sha1(json.dumps(payload, sort_keys=True, default=str).encode()).hexdigest()[:12]
    path = os.path.join(d, '%s-%s.json' % (prop, h))
    with open(path, 'w') as f:
        json.dump(payload, f, indent=1, default=str)
    return os.path.relpath(path, VERIF)


def write_evidence(prop, tier, seed, coverage, wall, violations, assumptions):
    d = os.path.join(VERIF, 'evidence')
    os.makedirs(d, exist_ok=True)
    ev = {'property_id': prop, 'tier': tier, 'seed': seed, 'level': 'proof', 'coverage': coverage,
          'assumptions': assumptions, 'wall_s': round(wall, 2), 'violations': violations}
    with open(os.path.join(d, '%s.json' % prop), 'w') as f:
        json.dump(ev, f, indent=1, default=str)


# ----------------------------------------------------------------------------- main
def setup():
    t0 = time.time()
    rc, out, rep = regenerate()
    log(out.strip())
    if rc != 0:
        log('gen failed')
        return 2
    props = sorted('PyElf.Props.' + os.path.basename(f)[:-5] for f in glob.glob(os.path.join(LEAN, 'PyElf', 'Props', '*.lean')))
    rc, out, dt = sh(['lake', 'build', 'driver'] + props, cwd=LEAN, timeout=7200)
    log(out[-4000:])
    log('setup: lake build rc=%d in %.0fs (total %.0fs)' % (rc, dt, time.time() - t0))
    return 0 if rc == 0 else 2


def main():
    ap = argparse.ArgumentParser()
    ap.add_argument('prop', nargs='?')
    ap.add_argument('--tier', default=os.environ.get('VERIF_TIER', 'quick'))
    ap.add_argument('--replay')
    ap.add_argument('--setup', action='store_true')
    ap.add_argument('--no-build', action='store_true', help='skip regenerate/build/audit (development only)')
    a = ap.parse_args()
    if a.setup:
        lock = open(os.path.join(VERIF, '.check.lock'), 'w')
        fcntl.flock(lock, fcntl.LOCK_EX)
        sys.exit(setup())
    prop = a.prop
    tier = a.tier if a.tier in ('quick', 'thorough') else 'quick'
    try:
        seed = int(os.environ.get('VERIF_SEED', '0'))
    except ValueError:
        seed = 0
    t0 = time.time()
    mod = importlib.import_module('props.%s' % prop.lower())

    if a.replay:
        with open(a.replay if os.path.isabs(a.replay) else os.path.join(VERIF, a.replay)) as f:
            payload = json.load(f)
        ctx = Ctx(prop, tier, seed, False)
        try:
            res = mod.replay(ctx, payload)
        finally:
            ctx.close()
        print(json.dumps(res, indent=1, default=str))
        sys.exit(1 if res.get('fails') else 0)

    # ---- regenerate + build + audit (serialised) ------------------------------
    lock = open(os.path.join(VERIF, '.check.lock'), 'w')
    fcntl.flock(lock, fcntl.LOCK_EX)
    tie_problems = []
    gen_rep = {}
    if not a.no_build:
        rc, out, gen_rep = regenerate()
        if rc != 0:
            tie_problems.append('translator failed on the current tree: ' + out.strip().splitlines()[-1] if out.strip() else 'translator failed')
        b = build(prop)
        if b['failed'] or b['rc'] != 0:
            tie_problems.append('lake build failed: theorems %s; modules %s' % (b['failed'], b['broken_modules']))
        if b.get('driver_log'):
            tie_problems.append('model driver does not build: ' + b['driver_note'])
        elif b.get('driver_note'):
            log(b['driver_note'])
            gen_rep['driver'] = b['driver_note']
        au = audit(prop, [t for t in b['theorems'] if t['name'] not in b['failed']]) if os.path.exists(common.DRIVER) else {'ok': False, 'axioms': {}, 'bad_axioms': {}, 'bad_tokens': [], 'missing': []}
        if not au['ok']:
            if au.get('bad_axioms'):
                tie_problems.append('axiom audit: %s' % au['bad_axioms'])
            if au.get('bad_tokens'):
                tie_problems.append('forbidden tokens: %s' % au['bad_tokens'][:5])
            if au.get('missing'):
                tie_problems.append('axiom audit could not see: %s' % au['missing'][:8])
        if tier == 'thorough' and b['rc'] == 0:
            mods = props_files(prop)
            rc, out, dt = sh(['lake', 'env', 'leanchecker'] + mods, cwd=LEAN, timeout=3000)
            gen_rep['leanchecker'] = {'rc': rc, 'wall': round(dt, 1), 'modules': mods}
            if rc != 0:
                tie_problems.append('leanchecker rejected: ' + out[-400:])
    else:
        b = {'theorems': [], 'failed': [], 'rc': 0, 'log': '', 'broken_modules': [], 'driver_ok': True}
        au = {'axioms': {}, 'ok': True}
    fcntl.flock(lock, fcntl.LOCK_UN)

    if not os.path.exists(common.DRIVER):
        log((b.get('driver_log') or b.get('log', ''))[-3000:])
        log('driver could not be built; cannot run')
        # the tie is broken and nothing can be searched
        payload = {'property': prop, 'no_failing_input_found': True, 'broken': tie_problems,
                   'build_log_tail': (b.get('driver_log', '') + b.get('log', ''))[-3000:]}
        path = write_replay(prop, payload)
        write_evidence(prop, tier, seed, {'obligations': max(1, len(b['theorems'])), 'discharged': len(b['theorems']) - len(b['failed']),
                                          'checker_cmd': 'lake build PyElf.Props.%s' % prop, 'trusted_base': TRUSTED_BASE,
                                          'explanation': 'driver did not build'}, time.time() - t0, 1, [])
        print('VIOLATION property=%s replay=%s no-failing-input-found' % (prop, path))
        sys.exit(1)

    # ---- harness: corpus, correspondence, direct property run -----------------
    search = bool(tie_problems)
    ctx = Ctx(prop, tier, seed, search)
    harness_error = None
    harness_error_kind = None
    try:
        mod.run(ctx)
    except Exception as e:
        harness_error = traceback.format_exc()
        harness_error_kind = classify_harness_error(e)
        log(harness_error)
    finally:
        ctx.close()
    out = ctx.out

    # ---- verdict ---------------------------------------------------------------
    findings = load_findings(prop)
    preds = getattr(mod, 'FINDINGS', {})
    unknown, known_hit = [], {}
    for v in out.violations:
        hit = None
        for e in findings:
            p = preds.get(e['id'])
            try:
                if p is not None and p(v):
                    hit = e
                    break
            except Exception:
                pass
        if hit is not None:
            known_hit.setdefault(hit['id'], []).append(v)
        else:
            unknown.append(v)

    obligations = len(b['theorems'])
    discharged = obligations - len(b['failed'])
    coverage = {
        'obligations': max(obligations, 1) if obligations else 0,
        'discharged': discharged,
        'checker_cmd': 'cd lean && lake build PyElf.Props.%s && lake env lean <#print axioms audit>%s' % (
            prop, ' && lake env leanchecker <modules>' if tier == 'thorough' else ''),
        'trusted_base': TRUSTED_BASE,
        'theorems': {t['name']: ('failed' if t['name'] in b['failed'] else 'ok') for t in b['theorems']},
        'axioms': au.get('axioms', {}),
        'translator': {k: gen_rep.get(k) for k in ('tables', 'table_entries', 'cons', 'elf_bundles', 'dwarf_bundles', 'refusals', 'pure', 'leanchecker', 'driver') if k in gen_rep},
        'evaluations': out.evaluations,
        'distinct_nontrivial': len(out.distinct),
        'rule': getattr(mod, 'RULE', ''),
        'samples': out.samples[:3] or [t['name'] for t in b['theorems'][:3]],
        'traces_validated_against_impl': out.evaluations,
        'generator_histogram': out.hist,
        'known_findings_hit': {k: len(v) for k, v in known_hit.items()},
        'tie_problems': tie_problems,
        'notes': out.notes,
    }
    if obligations == 0:
        coverage.pop('obligations'); coverage.pop('discharged')
    assumptions = list(getattr(mod, 'ASSUMPTIONS', []))

    exit_code = 0
    lines = []
    for e in findings:
        if e['id'] in known_hit:
            lines.append('KNOWN-FINDING: property=%s %s' % (prop, e['what']))
    if harness_error is not None and not unknown:
        if harness_error_kind == 'library':
            # The correspondence harness could not process what the library now does (an exception out of the library
            # in a place where the unchanged library never raises, or a library object of another kind than the
            # harness was handed before).  That is a broken correspondence, not a toolchain failure: no failing input
            # could be isolated, so report it as such, naming the stream's traceback in the replay file.
            payload = {'property': prop, 'no_failing_input_found': True, 'seed': seed, 'tier': tier,
                       'broken': tie_problems + ['correspondence harness stopped: the library no longer behaves in a way it can compare'],
                       'harness_traceback': harness_error[-4000:], 'searched': out.evaluations}
            path = write_replay(prop, payload)
            write_evidence(prop, tier, seed, coverage, time.time() - t0, 1, assumptions)
            print('\n'.join(lines + ['VIOLATION property=%s replay=%s no-failing-input-found' % (prop, path)]))
            log('%s %s: harness stopped on library behaviour, exit 1' % (prop, tier))
            sys.exit(1)
        write_evidence(prop, tier, seed, coverage, time.time() - t0, 0, assumptions)
        log('harness error — check could not run')
        print('\n'.join(lines))
        sys.exit(2)
    if unknown:
        # report the first violation of each (kind, stream); property violations first
        unknown.sort(key=lambda v: (v['kind'] != 'property', v['stream']))
        v = unknown[0]
        payload = {'property': prop, 'violation': v, 'others': len(unknown) - 1, 'seed': seed, 'tier': tier,
                   'broken': tie_problems}
        path = write_replay(prop, payload)
        lines.append('VIOLATION property=%s replay=%s' % (prop, path))
        log('first violation: kind=%s stream=%s\n%s' % (v['kind'], v['stream'], json.dumps(v, default=str)[:2000]))
        exit_code = 1
    elif tie_problems:
        payload = {'property': prop, 'no_failing_input_found': True, 'broken': tie_problems,
                   'failed_theorems': b['failed'], 'broken_modules': b['broken_modules'],
                   'build_log_tail': b.get('log', '')[-3000:], 'searched': out.evaluations}
        path = write_replay(prop, payload)
        lines.append('VIOLATION property=%s replay=%s no-failing-input-found' % (prop, path))
        log('\n'.join(tie_problems))
        exit_code = 1
    write_evidence(prop, tier, seed, coverage, time.time() - t0, len(unknown) if unknown else (1 if tie_problems else 0), assumptions)
    if lines:
        print('\n'.join(lines))
    log('%s %s: %d theorems (%d discharged), %d evaluations, %d distinct non-trivial, %.1fs, exit %d' % (
        prop, tier, obligations, discharged, out.evaluations, len(out.distinct), time.time() - t0, exit_code))
    sys.exit(exit_code)


if __name__ == '__main__':
    try:
        main()
    except SystemExit:
        raise
    except subprocess.TimeoutExpired as e:
        log('timeout: %s' % e)
        sys.exit(2)
    except Exception:
        traceback.print_exc()
        sys.exit(2)
